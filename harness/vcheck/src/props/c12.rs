//! C12: constraints placed in certificates are enforced by independent validators.
//! Deviation-bounded exploration of chains root -> [intermediates] -> leaf; a reference RFC 5280
//! section 6 validator computes the verdict from the PARAMETERS; OpenSSL and webpki are consulted on
//! the dimensions their documented semantics cover (DESIGN.md Appendix A).

use crate::glue::*;
use crate::keys::*;
use crate::run;
use crate::validators::*;
use explore::*;
use rcgen::KeyPair;
use refmodel::state::*;

const T_VERIFY: i64 = 1_717_200_000; // 2024-06-01T00:00:00Z

#[derive(Clone, Copy, Debug, PartialEq, Eq)]
pub enum Win {
    Inside,
    NotYet,
    Expired,
}

impl Win {
    fn bounds(self) -> (TimeSpec, TimeSpec) {
        match self {
            Win::Inside => (TimeSpec::ymd(2020, 1, 1), TimeSpec::ymd(2030, 1, 1)),
            Win::NotYet => (TimeSpec::ymd(2025, 1, 1), TimeSpec::ymd(2030, 1, 1)),
            Win::Expired => (TimeSpec::ymd(2020, 1, 1), TimeSpec::ymd(2023, 1, 1)),
        }
    }
}

#[derive(Clone, Debug)]
pub struct CaSpec {
    pub is_ca: IsCaSpec,
    /// None = no key usage extension
    pub ku: Option<Vec<u8>>,
    pub win: Win,
    pub nc: Option<NcSpec>,
    /// fields that carry extensions no validator acts on: 0 none, 1 CRL distribution point, 2 non-critical custom extension, 3 both (an alternative name on a CA is not inert: name constraints apply to it)
    pub inert: u8,
}

#[derive(Clone, Debug)]
pub struct ChainSpec {
    /// cas[0] = root, then intermediates towards the leaf
    pub cas: Vec<CaSpec>,
    pub depth: usize,
    pub leaf_sans: Vec<SanSpec>,
    pub leaf_ekus: Vec<EkuSpec>,
    pub leaf_win: Win,
    pub purpose: Purpose,
}

fn base_ca() -> CaSpec {
    CaSpec { is_ca: IsCaSpec::Unconstrained, ku: Some(vec![5, 6]), win: Win::Inside, nc: None, inert: 0 }
}

impl ChainSpec {
    pub fn base() -> Self {
        ChainSpec { cas: vec![base_ca(), base_ca(), base_ca()], depth: 1, leaf_sans: vec![SanSpec::Dns("host.example.com".into())], leaf_ekus: vec![], leaf_win: Win::Inside, purpose: Purpose::Server }
    }
    pub fn chain(&self) -> &[CaSpec] {
        &self.cas[..=self.depth]
    }
}

fn dns_matches(name: &str, base: &str) -> bool {
    let (n, b) = (name.to_ascii_lowercase(), base.to_ascii_lowercase());
    // a constraint with a leading dot stands for sub-domains only (OpenSSL nc_dns and webpki agree on this reading)
    if b.starts_with('.') {
        return n.len() > b.len() && n.ends_with(&b);
    }
    n == b || n.ends_with(&format!(".{}", b))
}

fn ip_matches(ip: &[u8], c: &CidrSpec) -> bool {
    if ip.len() != c.addr.len() {
        return false;
    }
    let m = c.mask();
    ip.iter().zip(c.addr.iter()).zip(m.iter()).all(|((a, b), m)| a & m == b & m)
}

/// Does the set of subtrees constrain this name form, and does the name match one of them?
fn nc_verdict(nc: &NcSpec, san: &SanSpec) -> Option<&'static str> {
    let (form_dns, form_ip) = (matches!(san, SanSpec::Dns(_)), matches!(san, SanSpec::Ip(_)));
    let same_form = |s: &SubtreeSpec| (form_dns && matches!(s, SubtreeSpec::Dns(_))) || (form_ip && matches!(s, SubtreeSpec::Ip(_)));
    let m = |s: &SubtreeSpec| match (s, san) {
        (SubtreeSpec::Dns(b), SanSpec::Dns(n)) => dns_matches(n, b),
        (SubtreeSpec::Ip(c), SanSpec::Ip(ip)) => ip_matches(ip, c),
        _ => false,
    };
    if nc.excluded.iter().any(|s| m(s)) {
        return Some("name inside an excluded subtree");
    }
    let constrained: Vec<&SubtreeSpec> = nc.permitted.iter().filter(|s| same_form(s)).collect();
    if !constrained.is_empty() && !constrained.iter().any(|s| m(s)) {
        return Some("name outside the permitted subtrees");
    }
    None
}

/// Reference verdict from the parameters. `for_webpki` drops the checks webpki does not make on a trust anchor
/// (CA flag, path length and validity of the anchor) and the X.509 key-usage check it does not make at all.
pub fn reference(c: &ChainSpec, for_webpki: bool) -> Option<String> {
    let chain = c.chain();
    for (j, ca) in chain.iter().enumerate() {
        let anchor = j == 0;
        let skip_anchor = for_webpki && anchor;
        if !skip_anchor {
            // OpenSSL (check_ca) accepts a certificate WITHOUT basicConstraints as a CA when its key usage
            // asserts keyCertSign (documented legacy behaviour): it is not consulted on that combination
            // (only for the trust anchor: for intermediates OpenSSL 3 demands basicConstraints, 'X509_STRICT is implicit')
            let openssl_legacy_ca = !for_webpki && anchor && ca.is_ca == IsCaSpec::NoCa && ca.ku.as_ref().map(|k| k.contains(&5)).unwrap_or(false);
            if !matches!(ca.is_ca, IsCaSpec::Unconstrained | IsCaSpec::Constrained(_)) && !openssl_legacy_ca {
                return Some(format!("issuer #{} is not a CA", j));
            }
            if let IsCaSpec::Constrained(n) = ca.is_ca {
                let following = c.depth - j; // intermediates below this certificate
                if following > n as usize {
                    return Some(format!("path length {} of issuer #{} exceeded ({} intermediates follow)", n, j, following));
                }
            }
            if ca.win != Win::Inside {
                return Some(format!("verification time outside the window of issuer #{}", j));
            }
        }
        if !for_webpki {
            if let Some(ku) = &ca.ku {
                if !ku.contains(&5) {
                    return Some(format!("issuer #{} key usage lacks keyCertSign", j));
                }
            }
        }
        if let Some(nc) = &ca.nc {
            for san in &c.leaf_sans {
                if let Some(why) = nc_verdict(nc, san) {
                    return Some(format!("{} (constraint on issuer #{})", why, j));
                }
            }
        }
    }
    if c.leaf_win != Win::Inside {
        return Some("verification time outside the leaf's window".into());
    }
    if !c.leaf_ekus.is_empty() {
        let want = if c.purpose == Purpose::Client { EkuSpec::ClientAuth } else { EkuSpec::ServerAuth };
        if !c.leaf_ekus.contains(&want) {
            return Some("requested purpose not among the leaf's extended key usages".into());
        }
    }
    None
}

pub struct KeysPool {
    pub keys: Vec<(KeyPair, KeyPub)>,
}

#[cfg(feature = "crypto")]
fn pool() -> KeysPool {
    let mut keys = Vec::new();
    for _ in 0..4 {
        let k = KeyPair::generate_for(rc_alg(Alg::Ed25519).unwrap()).expect("ed25519 key");
        let raw = rcgen::PublicKeyData::der_bytes(&k).to_vec();
        keys.push((k, KeyPub { alg: Alg::Ed25519, raw }));
    }
    KeysPool { keys }
}

/// Build the real chain with rcgen: returns (root der, intermediates nearest-leaf-last, leaf der).
#[cfg(feature = "crypto")]
fn build(c: &ChainSpec, pool: &KeysPool) -> Result<(Vec<u8>, Vec<Vec<u8>>, Vec<u8>), String> {
    let chain = c.chain();
    let mut certs: Vec<rcgen::Certificate> = Vec::new();
    for (j, ca) in chain.iter().enumerate() {
        let mut st = CertState::default();
        st.dn = DnSpec(vec![(DnTypeSpec::O, StrKind::Utf8, "C12 Test".into()), (DnTypeSpec::Cn, StrKind::Utf8, format!("CA level {}", j))]);
        st.is_ca = ca.is_ca;
        st.key_usages = ca.ku.clone().unwrap_or_default();
        let (nb, na) = ca.win.bounds();
        st.not_before = nb;
        st.not_after = na;
        st.nc = ca.nc.clone();
        if ca.inert & 1 != 0 {
            st.crl_dps = vec![vec![format!("http://crl.example/level{}", j)]];
        }
        if ca.inert & 2 != 0 {
            st.custom_exts = vec![CustomExtSpec { oid: vec![1, 3, 6, 1, 4, 1, 55555, 1], critical: false, content: vec![0x05, 0x00], acme: false }];
        }
        st.serial = Some(vec![0x10 + j as u8]);
        st.use_aki = j > 0;
        let p = to_params(&st)?;
        let cert = if j == 0 { p.self_signed(&pool.keys[0].0) } else { p.signed_by(&pool.keys[j].0, &certs[j - 1], &pool.keys[j - 1].0) }.map_err(|e| format!("{:?}", e))?;
        certs.push(cert);
    }
    let mut st = CertState::default();
    st.dn = DnSpec(vec![(DnTypeSpec::O, StrKind::Utf8, "Leaf Org, Inc".into())]);
    st.sans = c.leaf_sans.clone();
    st.ekus = c.leaf_ekus.clone();
    let (nb, na) = c.leaf_win.bounds();
    st.not_before = nb;
    st.not_after = na;
    st.serial = Some(vec![0x77]);
    st.use_aki = true;
    let last = chain.len() - 1;
    let leaf = to_params(&st)?.signed_by(&pool.keys[3].0, &certs[last], &pool.keys[last].0).map_err(|e| format!("{:?}", e))?;
    let root = certs[0].der().to_vec();
    let inters: Vec<Vec<u8>> = certs[1..].iter().map(|c| c.der().to_vec()).collect();
    Ok((root, inters, leaf.der().to_vec()))
}

#[cfg(feature = "crypto")]
fn judge(c: &ChainSpec, pool: &KeysPool) -> Outcome {
    let mut out = Outcome::default();
    let r = guarded(|| build(c, pool));
    out.transitions = 20 * (c.depth as u64 + 2);
    let (root, inters, leaf) = match r {
        Ok(Ok(x)) => x,
        other => {
            out.unexpected_err = Some(format!("{:?}", other.map(|r| r.map(|_| ()))));
            return out;
        }
    };
    out.digest = fnv(&leaf) ^ fnv(&root);
    let want_o = reference(c, false);
    let want_w = reference(c, true);
    let got_o = openssl_chain(&leaf, &inters, &root, T_VERIFY, c.purpose, false);
    let got_w = webpki_chain(&leaf, &inters, &root, T_VERIFY, c.purpose);
    if got_o.is_ok() != want_o.is_none() {
        out.findings.push(Finding::new(
            if want_o.is_none() { "CHAIN-OPENSSL-REJECTS-VALID" } else { "CHAIN-OPENSSL-ACCEPTS-INVALID" },
            "OpenSSL",
            format!("reference: {:?}; OpenSSL: {:?}", want_o, got_o),
        ));
    }
    if got_w.is_ok() != want_w.is_none() {
        out.findings.push(Finding::new(
            if want_w.is_none() { "CHAIN-WEBPKI-REJECTS-VALID" } else { "CHAIN-WEBPKI-ACCEPTS-INVALID" },
            "webpki",
            format!("reference (webpki scope): {:?}; webpki: {:?}", want_w, got_w),
        ));
    }
    out
}

fn cidr(addr: Vec<u8>, prefix: u8) -> SubtreeSpec {
    SubtreeSpec::Ip(CidrSpec { addr, prefix, ctor: CidrCtor::AddrPrefix })
}

pub fn fd00() -> Vec<u8> {
    let mut v = vec![0u8; 16];
    v[0] = 0xfd;
    v
}

pub fn chain_space() -> Space<ChainSpec> {
    let mut dims: Vec<Dim<ChainSpec>> = Vec::new();
    dims.push(Dim::new("depth").v("0 intermediates", |c: &mut ChainSpec| c.depth = 0).v("2 intermediates", |c: &mut ChainSpec| c.depth = 2));
    for (j, who) in [(0usize, "root"), (1, "intermediate1"), (2, "intermediate2")] {
        let mut d = Dim::new(Box::leak(format!("{}.is_ca", who).into_boxed_str()));
        d = d.v("NoCa", move |c: &mut ChainSpec| c.cas[j].is_ca = IsCaSpec::NoCa);
        d = d.v("ExplicitNoCa", move |c: &mut ChainSpec| c.cas[j].is_ca = IsCaSpec::ExplicitNoCa);
        d = d.v("pathlen 0", move |c: &mut ChainSpec| c.cas[j].is_ca = IsCaSpec::Constrained(0));
        d = d.v("pathlen 1", move |c: &mut ChainSpec| c.cas[j].is_ca = IsCaSpec::Constrained(1));
        // values around the one-octet INTEGER boundary: enough for any chain here, and must read as such
        d = d.v("pathlen 127", move |c: &mut ChainSpec| c.cas[j].is_ca = IsCaSpec::Constrained(127));
        d = d.v("pathlen 128", move |c: &mut ChainSpec| c.cas[j].is_ca = IsCaSpec::Constrained(128));
        d = d.v("pathlen 255", move |c: &mut ChainSpec| c.cas[j].is_ca = IsCaSpec::Constrained(255));
        dims.push(d);
        let mut d = Dim::new(Box::leak(format!("{}.key_usages", who).into_boxed_str()));
        d = d.v("absent", move |c: &mut ChainSpec| c.cas[j].ku = None);
        d = d.v("digitalSignature only", move |c: &mut ChainSpec| c.cas[j].ku = Some(vec![0]));
        d = d.v("cRLSign only", move |c: &mut ChainSpec| c.cas[j].ku = Some(vec![6]));
        d = d.v("all nine", move |c: &mut ChainSpec| c.cas[j].ku = Some((0..9).collect()));
        d = d.v("cRLSign twice", move |c: &mut ChainSpec| c.cas[j].ku = Some(vec![6, 6]));
        d = d.v("keyCertSign, cRLSign, keyCertSign", move |c: &mut ChainSpec| c.cas[j].ku = Some(vec![5, 6, 5]));
        d = d.v("keyAgreement twice + digitalSignature", move |c: &mut ChainSpec| c.cas[j].ku = Some(vec![4, 4, 0]));
        dims.push(d);
        let mut d = Dim::new(Box::leak(format!("{}.window", who).into_boxed_str()));
        d = d.v("not yet valid", move |c: &mut ChainSpec| c.cas[j].win = Win::NotYet);
        d = d.v("expired", move |c: &mut ChainSpec| c.cas[j].win = Win::Expired);
        dims.push(d);
        let mut d = Dim::new(Box::leak(format!("{}.inert_fields", who).into_boxed_str()));
        d = d.v("crl distribution point", move |c: &mut ChainSpec| c.cas[j].inert = 1);
        d = d.v("custom extension", move |c: &mut ChainSpec| c.cas[j].inert = 2);
        d = d.v("crl dp + custom extension", move |c: &mut ChainSpec| c.cas[j].inert = 3);
        dims.push(d);
        if j < 2 {
            let mut d = Dim::new(Box::leak(format!("{}.name_constraints", who).into_boxed_str()));
            let ncs: Vec<(&str, NcSpec)> = vec![
                ("permitted dns example.com", NcSpec { permitted: vec![SubtreeSpec::Dns("example.com".into())], excluded: vec![] }),
                ("excluded dns example.com", NcSpec { permitted: vec![], excluded: vec![SubtreeSpec::Dns("example.com".into())] }),
                ("permitted dns other.org", NcSpec { permitted: vec![SubtreeSpec::Dns("other.org".into())], excluded: vec![] }),
                ("excluded dns host.example.com", NcSpec { permitted: vec![], excluded: vec![SubtreeSpec::Dns("host.example.com".into())] }),
                ("permitted 10.0.0.0/8", NcSpec { permitted: vec![cidr(vec![10, 0, 0, 0], 8)], excluded: vec![] }),
                ("excluded 10.0.0.0/8", NcSpec { permitted: vec![], excluded: vec![cidr(vec![10, 0, 0, 0], 8)] }),
                ("permitted fd00::/8", NcSpec { permitted: vec![cidr(fd00(), 8)], excluded: vec![] }),
                ("excluded fd00::/8", NcSpec { permitted: vec![], excluded: vec![cidr(fd00(), 8)] }),
                ("permitted dns + excluded sub", NcSpec { permitted: vec![SubtreeSpec::Dns("example.com".into())], excluded: vec![SubtreeSpec::Dns("bad.example.com".into())] }),
                ("present but empty", NcSpec { permitted: vec![], excluded: vec![] }),
                // the same subtree in both lists (excluded wins: no DNS name at all is allowed), next to a permitted subtree of another form
                ("dns example.com permitted and excluded + permitted 10.0.0.0/8", NcSpec { permitted: vec![SubtreeSpec::Dns("example.com".into()), cidr(vec![10, 0, 0, 0], 8)], excluded: vec![SubtreeSpec::Dns("example.com".into())] }),
                ("10.0.0.0/8 permitted and excluded + permitted dns example.com", NcSpec { permitted: vec![cidr(vec![10, 0, 0, 0], 8), SubtreeSpec::Dns("example.com".into())], excluded: vec![cidr(vec![10, 0, 0, 0], 8)] }),
                ("permitted dns .example.com", NcSpec { permitted: vec![SubtreeSpec::Dns(".example.com".into())], excluded: vec![] }),
                ("excluded dns .example.com", NcSpec { permitted: vec![], excluded: vec![SubtreeSpec::Dns(".example.com".into())] }),
                ("permitted 10.1.2.3/32", NcSpec { permitted: vec![cidr(vec![10, 1, 2, 3], 32)], excluded: vec![] }),
                ("excluded 10.1.2.3/32", NcSpec { permitted: vec![], excluded: vec![cidr(vec![10, 1, 2, 3], 32)] }),
            ];
            for (l, n) in ncs {
                d = d.v(l, move |c: &mut ChainSpec| c.cas[j].nc = Some(n.clone()));
            }
            dims.push(d);
        }
    }
    let mut d = Dim::new("leaf.sans");
    let sans: Vec<(&str, Vec<SanSpec>)> = vec![
        ("example.com", vec![SanSpec::Dns("example.com".into())]),
        ("aexample.com", vec![SanSpec::Dns("aexample.com".into())]),
        ("bad.example.com", vec![SanSpec::Dns("bad.example.com".into())]),
        ("other.org", vec![SanSpec::Dns("other.org".into())]),
        ("HOST.EXAMPLE.COM", vec![SanSpec::Dns("HOST.EXAMPLE.COM".into())]),
        ("10.1.2.3", vec![SanSpec::Ip(vec![10, 1, 2, 3])]),
        ("10.1.2.4", vec![SanSpec::Ip(vec![10, 1, 2, 4])]),
        ("11.0.0.1", vec![SanSpec::Ip(vec![11, 0, 0, 1])]),
        ("9.255.255.255", vec![SanSpec::Ip(vec![9, 255, 255, 255])]),
        ("fd00::1", vec![SanSpec::Ip({
            let mut v = fd00();
            v[15] = 1;
            v
        })]),
        ("fe00::1", vec![SanSpec::Ip({
            let mut v = vec![0u8; 16];
            v[0] = 0xfe;
            v[15] = 1;
            v
        })]),
        ("dns + ip", vec![SanSpec::Dns("host.example.com".into()), SanSpec::Ip(vec![10, 1, 2, 3])]),
        ("dns inside + dns outside", vec![SanSpec::Dns("host.example.com".into()), SanSpec::Dns("other.org".into())]),
    ];
    for (l, s) in sans {
        d = d.v(l, move |c: &mut ChainSpec| c.leaf_sans = s.clone());
    }
    dims.push(d);
    let mut d = Dim::new("leaf.ekus");
    let ekus: Vec<(&str, Vec<EkuSpec>)> = vec![
        ("server", vec![EkuSpec::ServerAuth]),
        ("client", vec![EkuSpec::ClientAuth]),
        ("server+client", vec![EkuSpec::ServerAuth, EkuSpec::ClientAuth]),
        ("any only", vec![EkuSpec::Any]),
        ("other only", vec![EkuSpec::Other(vec![1, 2, 3, 4])]),
        ("codeSigning", vec![EkuSpec::CodeSigning]),
    ];
    for (l, e) in ekus {
        d = d.v(l, move |c: &mut ChainSpec| c.leaf_ekus = e.clone());
    }
    dims.push(d);
    dims.push(Dim::new("purpose").v("client", |c: &mut ChainSpec| c.purpose = Purpose::Client));
    dims.push(Dim::new("leaf.window").v("not yet valid", |c: &mut ChainSpec| c.leaf_win = Win::NotYet).v("expired", |c: &mut ChainSpec| c.leaf_win = Win::Expired));
    Space { base: ChainSpec::base(), dims }
}

#[cfg(feature = "crypto")]
pub fn run(prop: &str, tier: &str, replay: Option<&str>) -> i32 {
    run::set_replay(replay);
    let thorough = tier == "thorough";
    let mut rep = Report::new(prop, tier);
    rep.assume("verification time 2024-06-01; OpenSSL X509_verify_cert with default flags, explicit time and purpose; webpki verify_for_usage with its ring algorithms");
    rep.assume("webpki does not judge the trust anchor's CA flag, path length or validity, nor X.509 key usage: its reference verdict omits those checks (DESIGN.md Appendix A); a leaf EKU of anyExtendedKeyUsage only does not list a purpose");
    let pool = pool();
    let space = chain_space();
    let cap = if thorough { 1100 } else { 50 };
    {
        let sec = Section::new("chains/levels", "all chains with exactly k dimensions off the all-satisfied baseline (depth, per-issuer CA flag / path length / key usage / window / name constraints, leaf names, leaf EKUs, purpose, leaf window)").with_deadline(cap);
        run::levels(&sec, &space, if thorough { 3 } else { 2 }, &|c, _| judge(c, &pool));
        rep.add(sec);
    }
    {
        // prefix sweeps: IPv4 prefixes 0..=32 and IPv6 prefixes 0..=128 x boundary addresses, permitted and excluded, on root and intermediate
        let mut cases: Vec<(bool, u8, Vec<u8>, bool, usize)> = Vec::new();
        for p in 0..=32u8 {
            for ip in [vec![10u8, 1, 2, 3], vec![10, 1, 2, 2], vec![10, 255, 255, 255], vec![11, 0, 0, 0], vec![0, 0, 0, 0], vec![138, 1, 2, 3]] {
                for ex in [false, true] {
                    for at in [0usize, 1] {
                        cases.push((false, p, ip.clone(), ex, at));
                    }
                }
            }
        }
        for p in (0..=128u8).filter(|p| thorough || p % 8 == 0 || p % 8 == 1 || p % 8 == 7 || *p > 120) {
            let base = {
                let mut v = fd00();
                v[1] = 0x12;
                v[15] = 0x34;
                v
            };
            let mut near = base.clone();
            near[15] ^= 1;
            let mut far = base.clone();
            far[0] ^= 0x80;
            let mut mid = base.clone();
            mid[8] ^= 0x01;
            for ip in [base.clone(), near, far, mid] {
                for ex in [false, true] {
                    cases.push((true, p, ip.clone(), ex, 0));
                }
            }
        }
        let sec = Section::new("sweep/cidr-prefix enforcement", "subnet 10.1.2.3/p for every p in 0..=32 and fd12::34/p for p in 0..=128 (quick: byte-boundary neighbourhood), permitted and excluded, on root and intermediate, against leaf addresses inside / just outside / far outside").with_deadline(cap);
        run::sweep_cases(&sec, &cases, &|c| format!("v6={} prefix={} leaf={:?} excluded={} on issuer #{}", c.0, c.1, c.2, c.3, c.4), &|c| {
            let mut ch = ChainSpec::base();
            let addr = if c.0 {
                let mut v = fd00();
                v[1] = 0x12;
                v[15] = 0x34;
                v
            } else {
                vec![10, 1, 2, 3]
            };
            let sub = cidr(addr, c.1);
            ch.cas[c.4].nc = Some(if c.3 { NcSpec { permitted: vec![], excluded: vec![sub] } } else { NcSpec { permitted: vec![sub], excluded: vec![] } });
            ch.leaf_sans = vec![SanSpec::Ip(c.2.clone())];
            judge(&ch, &pool)
        });
        rep.add(sec);
    }
    {
        // full product for depth 1: per-issuer CA flag x path length x leaf EKU x purpose x windows (no bounding)
        let iscas = [IsCaSpec::Unconstrained, IsCaSpec::NoCa, IsCaSpec::ExplicitNoCa, IsCaSpec::Constrained(0), IsCaSpec::Constrained(1)];
        let wins = [Win::Inside, Win::NotYet, Win::Expired];
        let ekus: Vec<Vec<EkuSpec>> = vec![vec![], vec![EkuSpec::ServerAuth], vec![EkuSpec::ClientAuth], vec![EkuSpec::Any]];
        let mut cases = Vec::new();
        for depth in 0..=2usize {
            for r in iscas {
                for i in iscas {
                    for lw in wins {
                        for iw in wins {
                            for (ei, _) in ekus.iter().enumerate() {
                                for purpose in [Purpose::Server, Purpose::Client] {
                                    cases.push((depth, r, i, lw, iw, ei, purpose));
                                }
                            }
                        }
                    }
                }
            }
        }
        let sec = Section::new("product/ca-flags x windows x eku x purpose x depth", "complete product: depth 0..=2 x root CA flag/path length (5) x intermediate CA flag/path length (5) x leaf window (3) x intermediate window (3) x leaf EKU (4) x purpose (2)").with_deadline(cap);
        run::sweep_cases(&sec, &cases, &|c| format!("{:?}", c), &|c| {
            let mut ch = ChainSpec::base();
            ch.depth = c.0;
            ch.cas[0].is_ca = c.1;
            ch.cas[1].is_ca = c.2;
            ch.leaf_win = c.3;
            ch.cas[1].win = c.4;
            ch.leaf_ekus = ekus[c.5].clone();
            ch.purpose = c.6;
            judge(&ch, &pool)
        });
        rep.add(sec);
    }
    {
        // full product: path length x key usages x inert fields on each CA x depth (a path length must be enforced
        // whatever else the CA certificate carries; webpki does not look at CA key usages, OpenSSL does)
        let iscas = [IsCaSpec::Unconstrained, IsCaSpec::Constrained(0), IsCaSpec::Constrained(1)];
        let kus: Vec<Option<Vec<u8>>> = vec![None, Some(vec![5, 6]), Some(vec![0, 6]), Some(vec![6]), Some(vec![5]), Some(vec![0]), Some(vec![8])];
        let mut cases = Vec::new();
        for depth in 1..=2usize {
            for r in iscas {
                for i in iscas {
                    for (rk, _) in kus.iter().enumerate() {
                        for (ik, _) in kus.iter().enumerate() {
                            for inert in 0..3u8 {
                                cases.push((depth, r, i, rk, ik, inert));
                            }
                        }
                    }
                }
            }
        }
        let sec = Section::new("product/path-length x key-usages x inert x depth", "complete product: depth 1..=2 x root path length (3) x intermediate path length (3) x root key usages (7 sets incl. none, without keyCertSign, decipherOnly alone) x intermediate key usages (7) x inert extension fields (3)").with_deadline(cap);
        run::sweep_cases(&sec, &cases, &|c| format!("{:?}", c), &|c| {
            let mut ch = ChainSpec::base();
            ch.depth = c.0;
            ch.cas[0].is_ca = c.1;
            ch.cas[1].is_ca = c.2;
            ch.cas[0].ku = kus[c.3].clone();
            ch.cas[1].ku = kus[c.4].clone();
            ch.cas[0].inert = c.5;
            ch.cas[1].inert = c.5;
            judge(&ch, &pool)
        });
        rep.add(sec);
    }
    {
        // name-constraint lists of two subtrees that are related (equal, nested in either order, disjoint, of two forms), in
        // one list or split over the two lists, on the root or the intermediate, against leaf names inside / outside each:
        // every listed subtree is enforced whatever else the list holds and wherever it stands
        let subs: Vec<(&str, SubtreeSpec)> = vec![
            ("dns example.com", SubtreeSpec::Dns("example.com".into())),
            ("dns host.example.com", SubtreeSpec::Dns("host.example.com".into())),
            ("dns .example.com", SubtreeSpec::Dns(".example.com".into())),
            ("dns other.org", SubtreeSpec::Dns("other.org".into())),
            ("10.0.0.0/8", cidr(vec![10, 0, 0, 0], 8)),
            ("10.0.0.0/16", cidr(vec![10, 0, 0, 0], 16)),
            ("10.1.0.0/16", cidr(vec![10, 1, 0, 0], 16)),
            ("10.1.2.0/24", cidr(vec![10, 1, 2, 0], 24)),
            ("11.0.0.0/8", cidr(vec![11, 0, 0, 0], 8)),
            ("fd00::/8", cidr(fd00(), 8)),
            ("fd00::/16", cidr(fd00(), 16)),
            // subtrees that match every name of their family: permitted, they still exclude the other family of the form
            ("0.0.0.0/0", cidr(vec![0, 0, 0, 0], 0)),
            ("::/0", cidr(vec![0; 16], 0)),
        ];
        let fd = |b1: u8| {
            let mut v = fd00();
            v[1] = b1;
            v[15] = 1;
            v
        };
        let leaves: Vec<(&str, Vec<SanSpec>)> = vec![
            ("example.com", vec![SanSpec::Dns("example.com".into())]),
            ("host.example.com", vec![SanSpec::Dns("host.example.com".into())]),
            ("a.host.example.com", vec![SanSpec::Dns("a.host.example.com".into())]),
            ("other.org", vec![SanSpec::Dns("other.org".into())]),
            ("10.0.9.9", vec![SanSpec::Ip(vec![10, 0, 9, 9])]),
            ("10.1.2.3", vec![SanSpec::Ip(vec![10, 1, 2, 3])]),
            ("10.1.9.9", vec![SanSpec::Ip(vec![10, 1, 9, 9])]),
            ("10.200.0.1", vec![SanSpec::Ip(vec![10, 200, 0, 1])]),
            ("11.0.0.1", vec![SanSpec::Ip(vec![11, 0, 0, 1])]),
            ("fd00::1", vec![SanSpec::Ip(fd(0))]),
            ("fd7f::1", vec![SanSpec::Ip(fd(0x7f))]),
        ];
        // placement: 0 both permitted, 1 both excluded, 2 first permitted + second excluded
        let mut cases: Vec<(usize, usize, u8, usize, usize)> = Vec::new();
        for a in 0..subs.len() {
            for b in 0..subs.len() {
                for placement in 0..3u8 {
                    for at in 0..2usize {
                        for l in 0..leaves.len() {
                            cases.push((a, b, placement, at, l));
                        }
                    }
                }
            }
        }
        let sec = Section::new("product/name-constraint pairs", "complete product: ordered pairs over 13 subtrees (4 DNS, 5 IPv4 incl. nested with the same and with another base, 2 IPv6, the two universal subnets 0.0.0.0/0 and ::/0) x {both permitted, both excluded, one permitted + one excluded} x {root, intermediate} x 11 leaf names").with_deadline(cap);
        run::sweep_cases(&sec, &cases, &|c| format!("[{} , {}] placement#{} on issuer #{} leaf {}", subs[c.0].0, subs[c.1].0, c.2, c.3, leaves[c.4].0), &|c| {
            let mut ch = ChainSpec::base();
            let (a, b) = (subs[c.0].1.clone(), subs[c.1].1.clone());
            ch.cas[c.3].nc = Some(match c.2 {
                0 => NcSpec { permitted: vec![a, b], excluded: vec![] },
                1 => NcSpec { permitted: vec![], excluded: vec![a, b] },
                _ => NcSpec { permitted: vec![a], excluded: vec![b] },
            });
            ch.leaf_sans = leaves[c.4].1.clone();
            judge(&ch, &pool)
        });
        rep.add(sec);
    }
    run::finish(rep)
}

#[cfg(not(feature = "crypto"))]
pub fn run(_prop: &str, _tier: &str, _replay: Option<&str>) -> i32 {
    eprintln!("C12 needs a crypto back end");
    2
}
