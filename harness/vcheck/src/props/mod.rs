#[cfg(feature = "crypto")]
pub mod builders;
pub mod c01;
pub mod c03;
pub mod c06;
pub mod c07;
pub mod c08;
pub mod c09;
pub mod c10;
pub mod c11;
pub mod c12;
pub mod c13;
pub mod c14;
pub mod c15;
pub mod c16;
pub mod c17;
pub mod c18;
pub mod c19;
#[cfg(rustls_rcgen_verif)]
pub mod c20;
pub mod certfam;

pub fn run(prop: &str, tier: &str, replay: Option<&str>) -> i32 {
    match prop {
        "C02" | "C04" | "C05" => certfam::run(prop, tier, replay),
        "C01" => c01::run(prop, tier, replay),
        "C03" => c03::run(prop, tier, replay),
        "C06" => c06::run(prop, tier, replay),
        "C07" => c07::run(prop, tier, replay),
        "C08" => c08::run(prop, tier, replay),
        "C09" => c09::run(prop, tier, replay),
        "C10" => c10::run(prop, tier, replay),
        "C11" => c11::run(prop, tier, replay),
        "C12" => c12::run(prop, tier, replay),
        "C13" => c13::run(prop, tier, replay),
        "C14" => c14::run(prop, tier, replay),
        "C15" => c15::run(prop, tier, replay),
        "C16" => c16::run(prop, tier, replay),
        "C17" => c17::run(prop, tier, replay),
        "C18" => c18::run(prop, tier, replay),
        "C19" => c19::run(prop, tier, replay),
        #[cfg(rustls_rcgen_verif)]
        "C20" => c20::run(prop, tier, replay),
        _ => {
            eprintln!("unknown property {}", prop);
            2
        }
    }
}
