pub mod certfam;

pub fn run(prop: &str, tier: &str, replay: Option<&str>) -> i32 {
    match prop {
        "C02" | "C04" | "C05" => certfam::run(prop, tier, replay),
        _ => {
            eprintln!("unknown property {}", prop);
            2
        }
    }
}
