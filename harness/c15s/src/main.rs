//! C15, schedule part at primitive granularity: rcgen here is a rewritten copy of /repo's working tree
//! whose synchronisation primitives are shuttle's, so the DFS scheduler explores every interleaving of
//! every lock / atomic / once operation inside rcgen (plus spawn, join and a yield between API calls).
//!
//!   c15s explore <quick|thorough> <dir for failing schedules>
//!   c15s replay <plan index> <schedule file>
//!
//! Prints one line "C15S {json}". A divergence panics inside the execution, which makes shuttle persist
//! the failing schedule to a file (the replayable artefact).

use rcgen::*;
use std::panic::{catch_unwind, AssertUnwindSafe};
use std::sync::Arc;

const N_OPS: usize = 9;

fn op_name(i: usize) -> &'static str {
    ["self-sign A (kid sha256)", "self-sign A (kid sha384)", "leaf under CA A/sha256", "CRL under A (kid sha256)", "CRL under A (kid sha384)", "CSR with leaf key", "issue from parsed CSR under A", "import CA A", "leaf under CA A/sha384 (same key)"][i]
}

struct World {
    key_a: KeyPair,
    leaf_key: KeyPair,
    ca_a256: Certificate,
    ca_a384: Certificate,
    csr_der: Vec<u8>,
}

fn root() -> String {
    std::env::var("VERIF_ROOT").unwrap_or_else(|_| "/verif".into())
}

fn load(name: &str) -> KeyPair {
    let der = std::fs::read(format!("{}/fixtures/keys/{}", root(), name)).expect("fixture key");
    KeyPair::try_from(der.as_slice()).expect("load key")
}

fn params_a(kid: KeyIdMethod) -> CertificateParams {
    let mut p = CertificateParams::default();
    p.distinguished_name = DistinguishedName::new();
    p.distinguished_name.push(DnType::OrganizationName, "A org");
    p.distinguished_name.push(DnType::CommonName, "CA A");
    p.is_ca = IsCa::Ca(BasicConstraints::Unconstrained);
    p.key_usages = vec![KeyUsagePurpose::KeyCertSign, KeyUsagePurpose::CrlSign, KeyUsagePurpose::DigitalSignature];
    p.key_identifier_method = kid;
    p.use_authority_key_identifier_extension = true;
    p.serial_number = Some(SerialNumber::from(vec![0x0a]));
    p
}

fn params_leaf() -> CertificateParams {
    let mut p = CertificateParams::new(vec!["leaf.example".to_string()]).unwrap();
    p.distinguished_name = DistinguishedName::new();
    p.distinguished_name.push(DnType::CommonName, "leaf");
    p.distinguished_name.push(DnType::OrganizationName, "leaf org");
    p.use_authority_key_identifier_extension = true;
    p.extended_key_usages = vec![ExtendedKeyUsagePurpose::ServerAuth, ExtendedKeyUsagePurpose::ClientAuth];
    p.serial_number = Some(SerialNumber::from(vec![0x0b]));
    p
}

fn params_csr() -> CertificateParams {
    let mut p = CertificateParams::new(vec!["req.example".to_string()]).unwrap();
    p.distinguished_name = DistinguishedName::new();
    p.distinguished_name.push(DnType::CommonName, "req");
    p.key_usages = vec![KeyUsagePurpose::DigitalSignature, KeyUsagePurpose::KeyEncipherment];
    p
}

fn crl_params(kid: KeyIdMethod) -> CertificateRevocationListParams {
    CertificateRevocationListParams {
        this_update: date_time_ymd(2024, 1, 1),
        next_update: date_time_ymd(2024, 2, 1),
        crl_number: SerialNumber::from(7u64),
        issuing_distribution_point: None,
        revoked_certs: vec![RevokedCertParams { serial_number: SerialNumber::from(9u64), revocation_time: date_time_ymd(2023, 5, 5), reason_code: Some(RevocationReason::KeyCompromise), invalidity_date: None }],
        key_identifier_method: kid,
    }
}

fn world() -> World {
    let key_a = load("ed25519_1.pkcs8.der");
    let leaf_key = load("ed25519_2.pkcs8.der");
    let ca_a256 = params_a(KeyIdMethod::Sha256).self_signed(&key_a).unwrap();
    let ca_a384 = params_a(KeyIdMethod::Sha384).self_signed(&key_a).unwrap();
    let csr_der = params_csr().serialize_request(&leaf_key).unwrap().der().to_vec();
    World { key_a, leaf_key, ca_a256, ca_a384, csr_der }
}

fn exec(w: &World, i: usize) -> Result<Vec<u8>, String> {
    let e = |e: Error| format!("{:?}", e);
    Ok(match i {
        0 => params_a(KeyIdMethod::Sha256).self_signed(&w.key_a).map_err(e)?.der().to_vec(),
        1 => params_a(KeyIdMethod::Sha384).self_signed(&w.key_a).map_err(e)?.der().to_vec(),
        2 => params_leaf().signed_by(&w.leaf_key, &w.ca_a256, &w.key_a).map_err(e)?.der().to_vec(),
        3 => crl_params(KeyIdMethod::Sha256).signed_by(&w.ca_a256, &w.key_a).map_err(e)?.der().to_vec(),
        4 => crl_params(KeyIdMethod::Sha384).signed_by(&w.ca_a256, &w.key_a).map_err(e)?.der().to_vec(),
        5 => params_csr().serialize_request(&w.leaf_key).map_err(e)?.der().to_vec(),
        6 => {
            let mut p = CertificateSigningRequestParams::from_der(&w.csr_der.clone().into()).map_err(e)?;
            p.params.use_authority_key_identifier_extension = true;
            p.params.serial_number = Some(SerialNumber::from(vec![0x0c]));
            p.signed_by(&w.ca_a256, &w.key_a).map_err(e)?.der().to_vec()
        },
        7 => {
            let p = CertificateParams::from_ca_cert_der(w.ca_a256.der()).map_err(e)?;
            // re-issue from the imported parameters: output bytes are the observation
            p.self_signed(&w.key_a).map_err(e)?.der().to_vec()
        },
        _ => params_leaf().signed_by(&w.leaf_key, &w.ca_a384, &w.key_a).map_err(e)?.der().to_vec(),
    })
}

/// Plans: threads share ONE world (keys, issuer certificates); operations collide on the shared issuer
/// key with different key-identifier methods, on the shared issuer certificates and on the leaf key.
fn plans(tier: &str) -> Vec<Vec<Vec<usize>>> {
    let mut v = vec![
        vec![vec![3, 2], vec![4, 8]],
        vec![vec![0, 6], vec![1, 5]],
        vec![vec![3], vec![4], vec![8]],
        vec![vec![2], vec![8], vec![7]],
    ];
    if tier == "thorough" {
        v.push(vec![vec![3, 8], vec![4, 2], vec![1, 0]]);
        v.push(vec![vec![3, 4, 2], vec![4, 8, 3]]);
        v.push(vec![vec![5, 6], vec![6, 7], vec![2, 4]]);
    }
    v
}

fn body(plan: Arc<Vec<Vec<usize>>>) -> impl Fn() + Send + Sync + 'static {
    move || {
        // sequential reference on a world of its own (inside the execution: the primitives are shuttle's)
        let wr = world();
        let reference: Arc<Vec<Result<Vec<u8>, String>>> = Arc::new((0..N_OPS).map(|i| exec(&wr, i)).collect());
        let w = Arc::new(world());
        let mut hs = Vec::new();
        for (t, ops) in plan.iter().enumerate() {
            let (w, r, ops) = (w.clone(), reference.clone(), ops.clone());
            hs.push(shuttle::thread::spawn(move || {
                for op in ops {
                    let got = exec(&w, op);
                    if got != r[op] {
                        panic!("SCHEDULE-DEPENDENT-OUTPUT thread {} operation {:?}: output differs from the sequential reference", t, op_name(op));
                    }
                    shuttle::thread::yield_now();
                }
            }));
        }
        for h in hs {
            h.join().unwrap();
        }
    }
}

fn panic_text(p: Box<dyn std::any::Any + Send>) -> String {
    if let Some(s) = p.downcast_ref::<String>() {
        s.clone()
    } else if let Some(s) = p.downcast_ref::<&str>() {
        s.to_string()
    } else {
        "panic".into()
    }
}

fn esc(s: &str) -> String {
    let mut o = String::new();
    for c in s.chars() {
        match c {
            '"' => o.push_str("\\\""),
            '\\' => o.push_str("\\\\"),
            '\n' => o.push_str("\\n"),
            c if (c as u32) < 0x20 => o.push(' '),
            c => o.push(c),
        }
    }
    o
}

fn main() {
    let a: Vec<String> = std::env::args().collect();
    std::panic::set_hook(Box::new(|_| {}));
    match a.get(1).map(|s| s.as_str()) {
        Some("explore") => {
            let tier = a.get(2).map(|s| s.as_str()).unwrap_or("quick");
            let dir = std::path::PathBuf::from(a.get(3).expect("dir"));
            let cap: usize = std::env::var("C15S_MAX_SCHEDULES").ok().and_then(|s| s.parse().ok()).unwrap_or(if tier == "thorough" { 2_000_000 } else { 20_000 });
            let mut parts = Vec::new();
            let mut violated = false;
            for (pi, plan) in plans(tier).into_iter().enumerate() {
                if violated {
                    // the verdict is settled by the first divergence; remaining plans are reported as not run
                    parts.push(format!("{{\"plan\":{:?},\"schedules\":0,\"capped\":false,\"wall_s\":0.0,\"violation\":null,\"skipped\":true}}", plan));
                    continue;
                }
                let d = dir.join(format!("plan{}", pi));
                let _ = std::fs::remove_dir_all(&d);
                std::fs::create_dir_all(&d).unwrap();
                let mut cfg = shuttle::Config::new();
                cfg.stack_size = 1 << 20;
                cfg.max_steps = shuttle::MaxSteps::FailAfter(1_000_000);
                cfg.failure_persistence = shuttle::FailurePersistence::File(Some(d.clone()));
                let runner = shuttle::Runner::new(shuttle::scheduler::DfsScheduler::new(Some(cap), false), cfg);
                let t0 = std::time::Instant::now();
                let p = Arc::new(plan.clone());
                let r = catch_unwind(AssertUnwindSafe(|| runner.run(body(p))));
                let wall = t0.elapsed().as_secs_f64();
                match r {
                    Ok(n) => parts.push(format!("{{\"plan\":{:?},\"schedules\":{},\"capped\":{},\"wall_s\":{:.2},\"violation\":null}}", plan, n, n >= cap, wall)),
                    Err(pn) => {
                        violated = true;
                        let sched = std::fs::read_dir(&d).ok().and_then(|mut it| it.next()).and_then(|e| e.ok()).map(|e| e.path().display().to_string()).unwrap_or_default();
                        parts.push(format!("{{\"plan\":{:?},\"schedules\":null,\"capped\":false,\"wall_s\":{:.2},\"violation\":{{\"detail\":\"{}\",\"schedule_file\":\"{}\",\"plan_index\":{}}}}}", plan, wall, esc(&panic_text(pn)), esc(&sched), pi));
                    },
                }
            }
            println!("C15S {{\"tier\":\"{}\",\"plans\":[{}]}}", tier, parts.join(","));
        },
        Some("replay") => {
            let pi: usize = a[2].parse().unwrap();
            let plan = plans("thorough").into_iter().nth(pi).expect("plan index");
            let mut outcomes = Vec::new();
            for _ in 0..2 {
                let p = Arc::new(plan.clone());
                let file = a[3].clone();
                let r = catch_unwind(AssertUnwindSafe(|| shuttle::replay_from_file(body(p), &file)));
                outcomes.push(match r {
                    Ok(()) => "held".to_string(),
                    Err(pn) => panic_text(pn),
                });
            }
            println!("C15S {{\"replay\":[\"{}\",\"{}\"]}}", esc(&outcomes[0]), esc(&outcomes[1]));
        },
        _ => {
            eprintln!("usage: c15s explore <tier> <dir> | replay <plan> <schedule file>");
            std::process::exit(2);
        },
    }
}
