#!/bin/sh
# Run once; output committed under fixtures/keys (key *values* are arbitrary, kinds and formats are what matter).
# Note: OpenSSL 3.5 `genpkey -outform DER` writes the traditional form (SEC1 / PKCS#1) for EC and RSA.
set -e
cd "$(dirname "$0")/keys"
for i in 1 2; do
  openssl genpkey -algorithm ED25519 -outform DER -out ed25519_$i.pkcs8.der
  for c in 256 384 521; do
    openssl genpkey -algorithm EC -pkeyopt ec_paramgen_curve:P-$c -outform DER -out p${c}_$i.sec1.der
    openssl pkcs8 -topk8 -nocrypt -inform DER -in p${c}_$i.sec1.der -outform DER -out p${c}_$i.pkcs8.der
  done
done
for n in 2048_1 2048_2 3072_1 4096_1; do
  openssl genpkey -algorithm RSA -pkeyopt rsa_keygen_bits:${n%_*} -outform DER -out rsa$n.pkcs1.der
  openssl pkcs8 -topk8 -nocrypt -inform DER -in rsa$n.pkcs1.der -outform DER -out rsa$n.pkcs8.der
done
# sizes at and beyond the edges of what the back ends sign with (ring: 2048..=4096 bits, aws-lc-rs: 2048..=8192)
for n in 1024_1 6144_1 8192_1; do
  openssl genpkey -algorithm RSA -pkeyopt rsa_keygen_bits:${n%_*} -outform DER -out rsa$n.pkcs1.der
  openssl pkcs8 -topk8 -nocrypt -inform DER -in rsa$n.pkcs1.der -outform DER -out rsa$n.pkcs8.der
done
# EC keys without the optional embedded public key (ring requires it, aws-lc-rs does not)
for c in 256 384; do
  openssl ec -in p${c}_1.sec1.der -inform DER -no_public -outform DER -out p${c}_3np.sec1.der
  openssl pkcs8 -topk8 -nocrypt -inform DER -in p${c}_3np.sec1.der -outform DER -out p${c}_3np.pkcs8.der
done
# p256_5bare / p384_5bare (.sec1.der): the ECPrivateKey of p256_1 / p384_1 reduced to { version, privateKey } (no curve, no public key);
# written by a few lines of Python (see the commit that added them), OpenSSL has no option for it
openssl genpkey -algorithm ED448 -outform DER -out ed448_1.pkcs8.der
chmod 644 *
# keys whose DER ends in a byte that text tools treat specially (0x0a, 0x0d 0x0a, 0x20, 0x00): key files are binary.
# ed25519_6{lf,crlf,sp,nul}: PKCS#8 v1 framing + a seed with the wanted tail (a few lines of Python, see the commit);
# p256_6lf / p384_6lf: `openssl genpkey` repeated until the last byte of the public key (= of the file) is 0x0a
# data-dependent shapes (round 6): rsa2047_1 (`rsa_keygen_bits:2047`: the modulus has no sign octet), rsa2048_8e33
# (`rsa_keygen_pubexp:4294967297`, a 33-bit public exponent), ed25519_7pub00 / ed25519_7pubz00 (public key starts / ends with
# 0x00: seeds found by search), ed25519_7oids / p256_7oids / p384_7oids (private scalar or seed that contains the DER
# contents of the algorithm OIDs of the OTHER key types; EC keys written as SEC1 without public key and completed by `openssl ec`)
# round 7: ed25519_8attr (PKCS#8 v1 with the optional attributes [0] field, 108 octets), p256_8pnp (PKCS#8 whose inner
# ECPrivateKey carries the curve parameters but no public key, 79 octets: short-form outer length), p256_8pp-opt (parameters
# and public key, as some Java libraries write it; "-opt": a back end may refuse it) - all three written by a few lines of
# Python from the scalar of p256_1 / a fixed seed
# ed25519_8v2np: PKCS#8 with version 1 (v2) but WITHOUT the public key that v2 may carry (aws-lc-rs loads it, ring does not: "np")
# round 8: ed25519_7algrsa / 7algec, p256_7algs, p384_7algs: the secret contains complete AlgorithmIdentifier ENCODINGS (with
# their SEQUENCE headers) of the other key types; ed25519_7words: the PEM body spells ENCRYPTED, PRIVATE, BEGIN, END, RSA, EC
