#!/usr/bin/env python3
"""Regenerates the seeded-change table of DESIGN.md (section 0.4) from seeded/*/meta.json."""
import glob, json, os, re
root = os.path.dirname(os.path.dirname(os.path.abspath(__file__)))
rows = []
for m in sorted(glob.glob(os.path.join(root, 'seeded', '*', 'meta.json'))):
    j = json.load(open(m))
    sid = j.get('seed_id', os.path.basename(os.path.dirname(m)))
    caught = ', '.join(c if ' ' in c else '%s quick' % c for c in j.get('caught_by', [])) or 'NOT CAUGHT'
    note = (j.get('detection_note') or '').replace('|', '\\|').replace('\n', ' ')
    rows.append('| `%s` | %s | %s | %s |' % (sid, j.get('property', sid[:3]), caught, note))
table = '\n'.join(['<!-- seed-table:begin (bin/gen_seed_table.py) -->', '%d seeds stored.' % len(rows), '', '| seed | property | caught by | note |', '|---|---|---|---|'] + rows + ['<!-- seed-table:end -->'])
p = os.path.join(root, 'DESIGN.md')
s = open(p).read()
if '<!-- seed-table:begin' in s:
    s = re.sub(r'<!-- seed-table:begin.*?<!-- seed-table:end -->', lambda _: table, s, flags=re.S)
else:
    s = re.sub(r'\| seed \| property \| caught by \| note \|\n(\|.*\n)+', lambda _: table + '\n', s, count=1)
open(p, 'w').write(s)
print(len(rows), 'rows')
