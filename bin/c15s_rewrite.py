#!/usr/bin/env python3
"""Rewrite std synchronisation paths in <copy>/rcgen/src to shuttle's and add the dependency."""
import json, os, re, sys

root = sys.argv[1]
src = os.path.join(root, "rcgen", "src")
SUPPORTED = {"Mutex", "MutexGuard", "RwLock", "RwLockReadGuard", "RwLockWriteGuard", "Condvar", "Barrier", "Once",
             "mpsc", "atomic", "Arc", "Weak", "LockResult", "PoisonError", "TryLockError", "TryLockResult", "WaitTimeoutResult"}
# std-only (no shuttle counterpart): left on std and reported
report = {"files": {}, "left_on_std": []}

def rewrite_group(m):
    prefix, body = m.group(1), m.group(2)
    names = [n.strip() for n in body.split(",") if n.strip()]
    ok = [n for n in names if re.split(r"[:\s]", n)[0] in SUPPORTED]
    rest = [n for n in names if n not in ok]
    out = []
    if ok:
        out.append("%sshuttle::sync::{%s}" % (prefix, ", ".join(ok)))
    if rest:
        out.append("%sstd::sync::{%s}" % (prefix, ", ".join(rest)))
    return (";\n" if prefix.strip().startswith("use") or prefix.strip().startswith("pub use") else ", ").join(out)

for dp, _, fs in os.walk(src):
    for f in fs:
        if not f.endswith(".rs"):
            continue
        p = os.path.join(dp, f)
        s = open(p).read()
        o = s
        n = 0
        # use std::sync::{A, B};
        s, k = re.subn(r"((?:pub(?:\([a-z]+\))?\s+)?use\s+)(?:std|core)::sync::\{([^{}]*)\}", rewrite_group, s); n += k
        # direct paths
        pat = r"\b(?:std|core|alloc)::sync::(%s)\b" % "|".join(sorted(SUPPORTED))
        s, k = re.subn(pat, r"shuttle::sync::\1", s); n += k
        s, k = re.subn(r"\bstd::thread\b", "shuttle::thread", s); n += k
        s, k = re.subn(r"(?<![:\w])thread_local!", "shuttle::thread_local!", s); n += k
        s, k = re.subn(r"(?<![:\w])lazy_static!", "shuttle::lazy_static!", s); n += k
        s, k = re.subn(r"\bstd::hint::spin_loop\b", "shuttle::hint::spin_loop", s); n += k
        if s != o:
            open(p, "w").write(s)
            report["files"][os.path.relpath(p, src)] = n
        for t in ("OnceLock", "LazyLock", "OnceCell", "LazyCell", "static mut", "UnsafeCell", "RefCell", "Cell<"):
            if t in s and not f.startswith("verif_hooks"):
                report["left_on_std"].append({"file": os.path.relpath(p, src), "token": t})
        for m in re.finditer(r"\b(?:std|core)::sync::\w+", s):
            if not f.startswith("verif_hooks"):
                report["left_on_std"].append({"file": os.path.relpath(p, src), "token": m.group(0)})

ct = os.path.join(root, "rcgen", "Cargo.toml")
t = open(ct).read()
if "[dependencies.shuttle]" not in t:
    t += '\n[dependencies.shuttle]\nversion = "0.9.3"\n'
    open(ct, "w").write(t)
print(json.dumps(report, sort_keys=True))
