#!/usr/bin/env python3
"""Rewrite std synchronisation paths in <copy>/rcgen/src to shuttle's and add the dependency."""
import json, os, re, sys

root = sys.argv[1]
src = os.path.join(root, "rcgen", "src")
SUPPORTED = {"Mutex", "MutexGuard", "RwLock", "RwLockReadGuard", "RwLockWriteGuard", "Condvar", "Barrier", "Once",
             "mpsc", "atomic", "Arc", "Weak", "LockResult", "PoisonError", "TryLockError", "TryLockResult", "WaitTimeoutResult"}
# std-only (no shuttle counterpart): left on std and reported
report = {"files": {}, "left_on_std": []}

def rewrite_group(m):
    prefix, body = m.group(1), m.group(2)
    names = [n.strip() for n in body.split(",") if n.strip()]
    ok = [n for n in names if re.split(r"[:\s]", n)[0] in SUPPORTED]
    rest = [n for n in names if n not in ok]
    out = []
    if ok:
        out.append("%sshuttle::sync::{%s}" % (prefix, ", ".join(ok)))
    if rest:
        out.append("%sstd::sync::{%s}" % (prefix, ", ".join(rest)))
    return (";\n" if prefix.strip().startswith("use") or prefix.strip().startswith("pub use") else ", ").join(out)

for dp, _, fs in os.walk(src):
    for f in fs:
        if not f.endswith(".rs"):
            continue
        p = os.path.join(dp, f)
        s = open(p).read()
        o = s
        n = 0
        # use std::sync::{A, B};
        s, k = re.subn(r"((?:pub(?:\([a-z]+\))?\s+)?use\s+)(?:std|core)::sync::\{([^{}]*)\}", rewrite_group, s); n += k
        # direct paths
        pat = r"\b(?:std|core|alloc)::sync::(%s)\b" % "|".join(sorted(SUPPORTED))
        s, k = re.subn(pat, r"shuttle::sync::\1", s); n += k
        s, k = re.subn(r"\bstd::thread\b", "shuttle::thread", s); n += k
        s, k = re.subn(r"(?<![:\w])thread_local!", "shuttle::thread_local!", s); n += k
        s, k = re.subn(r"(?<![:\w])lazy_static!", "shuttle::lazy_static!", s); n += k
        s, k = re.subn(r"\bstd::hint::spin_loop\b", "shuttle::hint::spin_loop", s); n += k
        # std's LocalKey<Cell<T>> / LocalKey<RefCell<T>> convenience methods (set, get, take, replace, with_borrow,
        # with_borrow_mut) do not exist on shuttle's LocalKey: calls on the thread-locals declared in this file go through an
        # extension trait injected into the crate root (lib.rs), under other names (shuttle's own private `get` would shadow)
        tls = re.findall(r"thread_local!\s*[({][^}]*?\bstatic\s+(?:mut\s+)?([A-Z_][A-Z0-9_]*)\s*:", s, flags=re.S)
        tls += re.findall(r"^\s*(?:pub(?:\([a-z]+\))?\s+)?static\s+([A-Z_][A-Z0-9_]*)\s*:\s*(?:std::cell::)?(?:Cell|RefCell)<", s, flags=re.M)
        for name in set(tls):
            s, k = re.subn(r"\b%s\s*\.\s*(set|get|take|replace|with_borrow_mut|with_borrow)\s*\(" % re.escape(name), lambda m: "%s.tl_%s(" % (name, m.group(1)), s); n += k
            if k:
                report.setdefault("thread_local_convenience_calls", []).append({"file": os.path.relpath(p, src), "name": name, "calls": k})
        if s != o:
            open(p, "w").write(s)
            report["files"][os.path.relpath(p, src)] = n
        for t in ("OnceLock", "LazyLock", "OnceCell", "LazyCell", "static mut", "UnsafeCell", "RefCell", "Cell<"):
            if t in s and not f.startswith("verif_hooks"):
                report["left_on_std"].append({"file": os.path.relpath(p, src), "token": t})
        for m in re.finditer(r"\b(?:std|core)::sync::\w+", s):
            if not f.startswith("verif_hooks"):
                report["left_on_std"].append({"file": os.path.relpath(p, src), "token": m.group(0)})

# the extension trait for thread-local convenience calls
lib = os.path.join(src, "lib.rs")
ls = open(lib).read()
if "trait VerifTlExt" not in ls:
    ls += '''

#[doc(hidden)]
#[allow(dead_code, missing_docs)]
pub trait VerifTlCell<T> {
	fn tl_set(&'static self, v: T);
	fn tl_get(&'static self) -> T where T: Copy;
	fn tl_take(&'static self) -> T where T: Default;
	fn tl_replace(&'static self, v: T) -> T;
}
impl<T: 'static> VerifTlCell<T> for shuttle::thread::LocalKey<std::cell::Cell<T>> {
	fn tl_set(&'static self, v: T) { self.with(|c| c.set(v)) }
	fn tl_get(&'static self) -> T where T: Copy { self.with(|c| c.get()) }
	fn tl_take(&'static self) -> T where T: Default { self.with(|c| c.take()) }
	fn tl_replace(&'static self, v: T) -> T { self.with(|c| c.replace(v)) }
}
#[doc(hidden)]
#[allow(dead_code, missing_docs)]
pub trait VerifTlExt<T> {
	fn tl_set(&'static self, v: T);
	fn tl_take(&'static self) -> T where T: Default;
	fn tl_replace(&'static self, v: T) -> T;
	fn tl_with_borrow<R>(&'static self, f: impl FnOnce(&T) -> R) -> R;
	fn tl_with_borrow_mut<R>(&'static self, f: impl FnOnce(&mut T) -> R) -> R;
}
impl<T: 'static> VerifTlExt<T> for shuttle::thread::LocalKey<std::cell::RefCell<T>> {
	fn tl_set(&'static self, v: T) { self.with(|c| *c.borrow_mut() = v) }
	fn tl_take(&'static self) -> T where T: Default { self.with(|c| c.take()) }
	fn tl_replace(&'static self, v: T) -> T { self.with(|c| c.replace(v)) }
	fn tl_with_borrow<R>(&'static self, f: impl FnOnce(&T) -> R) -> R { self.with(|c| f(&c.borrow())) }
	fn tl_with_borrow_mut<R>(&'static self, f: impl FnOnce(&mut T) -> R) -> R { self.with(|c| f(&mut c.borrow_mut())) }
}
'''
    open(lib, "w").write(ls)
for dp, _, fs in os.walk(src):
    for f in fs:
        if f.endswith(".rs") and f != "lib.rs":
            p = os.path.join(dp, f)
            s = open(p).read()
            if ".tl_" in s and "VerifTlCell" not in s:
                # bring the traits into scope after the leading attributes / doc comments of the module
                s = "#[allow(unused_imports)]\nuse crate::{VerifTlCell as _, VerifTlExt as _};\n" + s if not s.lstrip().startswith("//!") and not s.lstrip().startswith("#![") else re.sub(r"((?:^(?://!|#!\[).*\n)+)", lambda m: m.group(1) + "#[allow(unused_imports)]\nuse crate::{VerifTlCell as _, VerifTlExt as _};\n", s, count=1, flags=re.M)
                open(p, "w").write(s)

ct = os.path.join(root, "rcgen", "Cargo.toml")
t = open(ct).read()
if "[dependencies.shuttle]" not in t:
    t += '\n[dependencies.shuttle]\nversion = "0.9.3"\n'
    open(ct, "w").write(t)
print(json.dumps(report, sort_keys=True))
