#!/bin/sh
# Builds harness/target/c15s/release/c15s from a rewritten copy of /repo's CURRENT working tree:
#   /repo -> harness/target/c15s-src (no .git, no target), then in rcgen/src every path
#   std::sync::{Mutex,RwLock,Condvar,Barrier,Once,mpsc,atomic,..} / std::thread / thread_local! / lazy_static!
#   is rewritten to shuttle's, so that the DFS scheduler owns every synchronisation operation inside rcgen.
# Writes out/logs/c15s-rewrite.json describing what was rewritten and what could not be.
. "$(dirname "$0")/common.sh"
SRC=$HARNESS/target/c15s-src
STAGE=$HARNESS/target/c15s-stage
mkdir -p "$SRC" "$STAGE"
rsync -a --delete --exclude .git --exclude target --exclude '/fuzz' "$REPO/" "$STAGE/" || { echo "MACHINERY-ERROR: copy of /repo failed" >&2; exit 2; }
python3 "$VERIF_ROOT/bin/c15s_rewrite.py" "$STAGE" >"$LOGDIR/c15s-rewrite.json" || { echo "MACHINERY-ERROR: rewrite failed" >&2; exit 2; }
# content-compared copy: unchanged files keep their time stamps, so cargo rebuilds only what changed
rsync -rlc --delete "$STAGE/" "$SRC/" || { echo "MACHINERY-ERROR: copy to build tree failed" >&2; exit 2; }
if ! (cd "$HARNESS/c15s" && RUSTFLAGS="" CARGO_TARGET_DIR="$HARNESS/target/c15s" cargo build --release --offline) >"$LOGDIR/build-c15s.log" 2>&1; then
  echo "MACHINERY-ERROR: rewritten-copy build failed; last lines of $LOGDIR/build-c15s.log:" >&2
  tail -n 25 "$LOGDIR/build-c15s.log" >&2
  exit 2
fi
exit 0
