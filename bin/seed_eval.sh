#!/bin/sh
# usage: bin/seed_eval.sh <dir with patch.diff + demo.rs> <tier> <property> [property...]
# 1. confirms the seeded change in a scratch worktree: repo tests pass with it, demo fails with it, demo passes without it
# 2. applies it to /repo, runs the given checks, reverts it
# prints one line per step; exit 0 always (this is a lab tool, not a check)
D=$(cd "$1" && pwd); TIER=$2; shift 2
REPO=${VERIF_REPO:-/repo}; VROOT=${VERIF_ROOT:-/verif}
W=/tmp/seedeval-wt-$$
export CARGO_TARGET_DIR=/tmp/seedeval-target
export CARGO_NET_OFFLINE=true
DEMO_PKG=${DEMO_PKG:-rcgen}
DEMO_FEATURES=${DEMO_FEATURES:---features x509-parser}
if [ -z "${SKIP_CONFIRM:-}" ]; then
  git -C /repo worktree add -q --detach "$W" HEAD || exit 0
  cd "$W"
  if ! git apply "$D/patch.diff"; then echo "SEED patch does not apply to HEAD"; git -C /repo worktree remove --force "$W"; exit 0; fi
  if cargo test --workspace --no-fail-fast --offline >/tmp/seedeval-suite.log 2>&1; then echo "SEED suite_passes_with_change=true"; else echo "SEED suite_passes_with_change=FALSE (see /tmp/seedeval-suite.log)"; fi
  if [ "$DEMO_PKG" = rcgen ]; then cp "$D/demo.rs" rcgen/tests/demo_seed.rs; else mkdir -p rustls-cert-gen/tests; cp "$D/demo.rs" rustls-cert-gen/tests/demo_seed.rs; fi
  if cargo test --offline -p $DEMO_PKG $DEMO_FEATURES --test demo_seed >/tmp/seedeval-demo1.log 2>&1; then echo "SEED demo_fails_with_change=FALSE"; else echo "SEED demo_fails_with_change=true"; fi
  git apply -R "$D/patch.diff"
  if cargo test --offline -p $DEMO_PKG $DEMO_FEATURES --test demo_seed >/tmp/seedeval-demo2.log 2>&1; then echo "SEED demo_passes_without_change=true"; else echo "SEED demo_passes_without_change=FALSE (see /tmp/seedeval-demo2.log)"; fi
  cd /; git -C /repo worktree remove --force "$W"
fi
cd "$VROOT"
if ! git -C "$REPO" apply "$D/patch.diff"; then echo "SEED patch does not apply to /repo"; exit 0; fi
for P in "$@"; do
  bin/check $P $TIER >/tmp/seedeval-check-$P.log 2>&1; rc=$?
  n=$(grep -c '^VIOLATION' /tmp/seedeval-check-$P.log)
  echo "SEED check $P $TIER exit=$rc violations=$n"
  grep -A1 '^VIOLATION' /tmp/seedeval-check-$P.log | grep -v '^VIOLATION' | grep -v '^--' | cut -c1-260 | head -4
done
git -C "$REPO" checkout -- .
git -C "$REPO" status --short | head -3
