# shared by bin/setup and bin/check
VERIF_ROOT=${VERIF_ROOT:-/verif}
export VERIF_ROOT
# the subject: /repo, always, for every registered command; VERIF_REPO exists for the lab tools only (bin/lab_env.sh),
# which evaluate seeded changes on a scratch copy so that /repo itself stays untouched meanwhile
REPO=${VERIF_REPO:-/repo}
export VERIF_REPO=$REPO
export CARGO_NET_OFFLINE=true
export RUSTFLAGS="--cfg rustls_rcgen_verif"
HARNESS=$VERIF_ROOT/harness
LOGDIR=$VERIF_ROOT/out/logs
mkdir -p "$LOGDIR"

# build_backend <ring|aws|nocrypto>  -> builds $HARNESS/target/<backend>/release/vcheck from /repo's working tree
build_backend() {
  b=$1
  case $b in
    ring) feats="--no-default-features --features ring" ;;
    aws) feats="--no-default-features --features aws" ;;
    nocrypto) feats="--no-default-features --features nocrypto" ;;
    plain) feats="--no-default-features --features ring" ;;   # hooks OFF: production behaviour (std RandomState)
  esac
  flags="$RUSTFLAGS"
  [ "$b" = plain ] && flags=""
  if ! (cd "$HARNESS" && RUSTFLAGS="$flags" CARGO_TARGET_DIR="$HARNESS/target/$b" cargo build --release --offline -p vcheck $feats) >"$LOGDIR/build-$b.log" 2>&1; then
    echo "MACHINERY-ERROR: harness build ($b) failed; last lines of $LOGDIR/build-$b.log:" >&2
    tail -n 25 "$LOGDIR/build-$b.log" >&2
    return 2
  fi
  return 0
}

# build_cli <ring|aws> -> $HARNESS/target/cli-<backend>/release/rustls-cert-gen, from /repo's working tree, hooks off
build_cli() {
  b=$1
  case $b in
    ring) feats="--no-default-features --features ring" ;;
    aws) feats="--no-default-features --features aws_lc_rs" ;;
  esac
  if ! (RUSTFLAGS="" cargo build --release --offline --locked --manifest-path "$REPO/Cargo.toml" -p rustls-cert-gen $feats --target-dir "$HARNESS/target/cli-$b") >"$LOGDIR/build-cli-$b.log" 2>&1; then
    echo "MACHINERY-ERROR: CLI build ($b) failed; last lines of $LOGDIR/build-cli-$b.log:" >&2
    tail -n 25 "$LOGDIR/build-cli-$b.log" >&2
    return 2
  fi
  return 0
}
