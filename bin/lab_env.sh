#!/bin/sh
# Lab tool (not a check): creates an isolated copy of the framework and of the subject so that seeded changes can be
# evaluated while /repo and /verif stay untouched:
#   /tmp/lab-<name>/repo   git worktree of /repo HEAD
#   /tmp/lab-<name>/verif  copy of /verif (with its build output) whose path dependency points at that worktree
# usage: bin/lab_env.sh <name> create|remove ; then run lab commands as
#   VERIF_ROOT=/tmp/lab-<name>/verif VERIF_REPO=/tmp/lab-<name>/repo /tmp/lab-<name>/verif/bin/check C02 quick
N=$1; L=/tmp/lab-$N
case $2 in
  create)
    mkdir -p "$L"
    git -C /repo worktree add -q --detach "$L/repo" HEAD || exit 1
    rsync -a --exclude .git --exclude '/out' --exclude '/harness/target/cfg' --exclude '/harness/target/debug' /verif/ "$L/verif/" || exit 1
    sed -i "s#path = \"/repo/#path = \"$L/repo/#" "$L/verif/harness/vcheck/Cargo.toml"
    echo "export VERIF_ROOT=$L/verif VERIF_REPO=$L/repo" ;;
  remove)
    git -C /repo worktree remove --force "$L/repo" 2>/dev/null
    rm -rf "$L"; git -C /repo worktree prune ;;
  *) echo "usage: $0 <name> create|remove" >&2; exit 2 ;;
esac
