#!/usr/bin/env python3
"""usage: seed_store.py <src dir (patch.diff, demo.rs, meta.json)> <seed id> <caught_by (comma list or 'none')> <note>
Copies a confirmed seeded change to /verif/seeded/<seed id>/ and records what was run."""
import json, os, shutil, sys
src, sid, caught, note = sys.argv[1:5]
dst = os.path.join('/verif/seeded', sid)
os.makedirs(dst, exist_ok=True)
shutil.copy(os.path.join(src, 'patch.diff'), dst)
shutil.copy(os.path.join(src, 'demo.rs'), dst)
meta = json.load(open(os.path.join(src, 'meta.json')))
meta['seed_id'] = sid
meta['confirmed_by_us'] = {
    'how': 'bin/seed_eval.sh: scratch worktree of /repo HEAD; with the change `cargo test --workspace --offline` passes, the demo fails; without it the demo passes',
    'suite_passes_with_change': True, 'demo_fails_with_change': True, 'demo_passes_without_change': True}
meta['caught_by'] = [] if caught == 'none' else caught.split(',')
meta['detection_note'] = note
json.dump(meta, open(os.path.join(dst, 'meta.json'), 'w'), indent=1)
print('stored', dst)
