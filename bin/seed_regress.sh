#!/bin/sh
# Lab tool: re-apply every stored seeded change to /repo in turn, run the first check listed in its caught_by
# (quick tier) and record whether it still reports a violation. Writes out/seed_regress.tsv. /repo is restored after each.
cd "$(dirname "$0")/.."
REPO=${VERIF_REPO:-/repo}
mkdir -p out
: > out/seed_regress.tsv
for d in seeded/*/; do
  id=$(basename "$d")
  [ -n "$1" ] && case "$id" in $1) ;; *) continue ;; esac
  p=$(jq -r '.caught_by[0] // empty' "$d/meta.json" | cut -d' ' -f1)
  [ -z "$p" ] && { printf '%s\t-\tno-catcher\n' "$id" >> out/seed_regress.tsv; continue; }
  if ! git -C "$REPO" apply --check "$PWD/$d/patch.diff" 2>/dev/null; then printf '%s\t%s\tpatch-does-not-apply\n' "$id" "$p" >> out/seed_regress.tsv; continue; fi
  git -C "$REPO" apply "$PWD/$d/patch.diff"
  bin/check "$p" quick > "out/seed_regress-$id.log" 2>&1; rc=$?
  git -C "$REPO" checkout -- .
  n=$(grep -c '^VIOLATION' "out/seed_regress-$id.log")
  printf '%s\t%s\texit=%s violations=%s\n' "$id" "$p" "$rc" "$n" >> out/seed_regress.tsv
done
git -C "$REPO" status --short | head -3
awk -F'\t' '{print $3}' out/seed_regress.tsv | sed 's/violations=[0-9]*/violations=N/' | sort | uniq -c
