---- MODULE dn ----
(* Cross-check model for C20: a distinguished name as an insertion-ordered map.
   `order` lists the present attribute types in order of first insertion since they were last
   absent; `val` gives each type its most recently assigned value (None = absent). *)
EXTENDS Sequences, FiniteSets, Naturals
CONSTANTS Types, Values, None
VARIABLES order, val

vars == <<order, val>>

Init == /\ order = <<>>
        /\ val = [t \in Types |-> None]

Push(t, v) == /\ val' = [val EXCEPT ![t] = v]
              /\ order' = IF val[t] = None THEN Append(order, t) ELSE order

Remove(t) == /\ val' = [val EXCEPT ![t] = None]
             /\ order' = SelectSeq(order, LAMBDA x: x # t)

DoPush == \E t \in Types: \E v \in Values: Push(t, v)
DoRemove == \E t \in Types: Remove(t)

Next == DoPush \/ DoRemove

Spec == Init /\ [][Next]_vars

NoDuplicates == \A i, j \in 1..Len(order): i # j => order[i] # order[j]
SameKeys == {order[i] : i \in 1..Len(order)} = {t \in Types: val[t] # None}
Inv == NoDuplicates /\ SameKeys
====
