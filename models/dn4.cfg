CONSTANTS
  Types = {"CN", "O", "X1234", "X2543"}
  Values = {"Ua", "Ub", "Pa", "Ue"}
  None = "none"
INIT Init
NEXT Next
INVARIANT Inv
